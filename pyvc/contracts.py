"""Sidecar contract registry.

Contract files under /verif/contracts/*.py are plain Python modules that call
`contract(...)`, `loop(...)`, `assumed(...)`, `spec(...)`, `ghost_code(...)`.
They are executed by the checker (never imported into eyecite); all clauses are
strings in the expression language of the engine.
"""
from __future__ import annotations

import importlib.util
import os
from dataclasses import dataclass, field
from typing import Any, Callable, Dict, List, Optional


@dataclass
class Contract:
    qname: str
    types: Dict[str, str] = field(default_factory=dict)      # param/local name -> type string
    returns: Optional[str] = None
    requires: Dict[str, str] = field(default_factory=dict)
    ensures: Dict[str, str] = field(default_factory=dict)
    raises_ensures: Dict[str, Dict[str, str]] = field(default_factory=dict)   # exc -> clauses that must hold when raised
    noraise: bool = False
    modifies: List[str] = field(default_factory=list)        # "param.field.field", or "param" for mutated sequences
    assumed: bool = False                                    # external / trusted: never verified
    pure_result: Optional[str] = None                        # defining expression for pure functions (inlined at call sites)
    ghost: Dict[str, str] = field(default_factory=dict)      # ghost inputs: name -> type
    props: Dict[str, str] = field(default_factory=dict)      # clause name -> property id (default: contract-level prop)
    prop: str = ""
    trusted_note: str = ""
    may_raise: List[str] = field(default_factory=list)       # exception classes an assumed callee may raise
    fresh_result: bool = False                               # result is a newly allocated object (of exactly the declared class)
    fresh_paths: List[str] = field(default_factory=list)     # "result", "result.metadata": objects allocated during the call (class: any subclass of the static
                                                             # class); allocated at call sites, and an obligation (`post:fresh:<path>`) of the verified body
    locals_types: Dict[str, str] = field(default_factory=dict)
    frame_check: bool = True
    params: List[str] = field(default_factory=list)         # for contracts of functions without an AST (dataclass __init__)
    defaults: Dict[str, str] = field(default_factory=dict)
    defs: Dict[str, str] = field(default_factory=dict)          # named lambdas usable in the clauses
    ghost_args: Dict[str, Dict[str, str]] = field(default_factory=dict)   # callee short name -> {callee ghost name: expression in the caller}
    func_params: Dict[str, List[str]] = field(default_factory=dict)   # function-valued parameter -> builtin names it may be bound to (verified once per choice)
    merge_except: List[str] = field(default_factory=list)      # if-statements (labels like 'If#2') that still fork when merge_ifs is on
    merge_ifs: bool = False                                    # merge the two branches of an if when both fall through
    ghost_init: Dict[str, str] = field(default_factory=dict)    # initial values of ghost variables (prover's choice; assumed at entry only)
    functional: Optional[List[str]] = None                     # deterministic int-valued function: heap keys ("Class.field") it may read; the result at a
                                                               # call site equals F_<qname>(arguments, those heap arrays) -- equal inputs give equal results


@dataclass
class LoopSpec:
    qname: str
    ordinal: int
    invariant: Dict[str, str] = field(default_factory=dict)
    modifies: List[str] = field(default_factory=list)        # extra havoc targets (heap paths) beyond syntactic ones
    decreases: Optional[str] = None
    props: Dict[str, str] = field(default_factory=dict)
    unroll_literal: bool = False
    step: Dict[str, str] = field(default_factory=dict)          # two-state clauses: prev(x) = value at body start
    defs: Dict[str, str] = field(default_factory=dict)


@dataclass
class GhostCode:
    qname: str
    anchor: str          # e.g. "loop1:body_start", "loop1:body_end", "call:append#1:after"
    code: str


class Registry:
    def __init__(self):
        self.contracts: Dict[str, Contract] = {}
        self.loops: Dict[tuple, LoopSpec] = {}
        self.ghost: Dict[str, List[GhostCode]] = {}
        self.specs: Dict[str, Callable] = {}          # spec functions: python callables over SVs (engine, *args)
        self.axioms: List[Callable] = []
        self.lemmas: List[dict] = []
        self.extra_fields: Dict[str, str] = {}      # "Class.field" -> type string, for plain (non-dataclass) classes

    def contract(self, qname: str, **kw) -> Contract:
        req = kw.pop("requires", {})
        if isinstance(req, list):
            req = {f"r{i}": r for i, r in enumerate(req)}
        ens = kw.pop("ensures", {})
        if isinstance(ens, list):
            ens = {f"e{i}": r for i, r in enumerate(ens)}
        c = Contract(qname, requires=req, ensures=ens, **kw)
        self.contracts[qname] = c
        return c

    def assumed(self, qname: str, **kw) -> Contract:
        kw["assumed"] = True
        return self.contract(qname, **kw)

    def loop(self, qname: str, ordinal: int, **kw) -> LoopSpec:
        ls = LoopSpec(qname, ordinal, **kw)
        self.loops[(qname, ordinal)] = ls
        return ls

    def ghost_code(self, qname: str, anchor: str, code: str):
        self.ghost.setdefault(qname, []).append(GhostCode(qname, anchor, code))

    def lemma(self, name: str, params, statement: str, always: bool = False):
        """A closed lemma: proved once, stand-alone (no path condition); instantiated by use_lemma(name, args...)
        in ghost code."""
        # always=True: a lemma that IS a property clause (proved on every run, not only when instantiated by use_lemma)
        self.lemmas.append({"name": name, "params": params, "statement": statement, "always": always})

    def spec(self, name: str):
        def deco(fn):
            if name.startswith("on_"):
                # hooks accumulate: every registered hook is called
                prev = self.specs.get(name)
                if prev is None:
                    self.specs[name] = fn
                else:
                    def both(*a, _p=prev, _f=fn, **k):
                        _p(*a, **k)
                        return _f(*a, **k)
                    self.specs[name] = both
            else:
                self.specs[name] = fn
            return fn
        return deco

    def load_dir(self, path: str, only: Optional[List[str]] = None):
        for fn in sorted(os.listdir(path)):
            if not fn.endswith(".py") or fn.startswith("_"):
                continue
            if only and fn[:-3] not in only:
                continue
            spec = importlib.util.spec_from_file_location("contracts_" + fn[:-3], os.path.join(path, fn))
            mod = importlib.util.module_from_spec(spec)
            mod.R = self
            mod.contract = self.contract
            mod.assumed = self.assumed
            mod.loop = self.loop
            mod.ghost_code = self.ghost_code
            mod.spec = self.spec
            mod.lemma = self.lemma
            mod.fields = self.extra_fields.update
            mod.shared = self.__dict__.setdefault('shared', {})     # names exported by earlier contract files
            spec.loader.exec_module(mod)
        return self
